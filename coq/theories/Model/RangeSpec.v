(* Model/RangeSpec.v -- the exact big-number specification of carry-propagating range
   coding (DESIGN.md Appendix A).  Unbounded naturals, no wrap-around, no held-back words,
   no bookkeeping: a state (L, R, k) denotes the real interval [L, L+R) / (2^SB * B^k),
   B = 2^WB.  Definitions only; executable. *)
From CV Require Export Base.Bits Model.EModel Model.Range.
Open Scope N_scope.

Record sstate := { sL : N; sR : N; sk : nat }.

Definition spec_init (c : rcfg) : sstate := {| sL := 0; sR := 2 ^ rSB c - 1; sk := 0 |}.

(* one symbol with left cumulative [cum] and probability [p] at precision [P] *)
Definition spec_step (c : rcfg) (P cum p : N) (s : sstate) : sstate :=
  let sc := sR s / 2 ^ P in
  let L1 := sL s + sc * cum in
  let R1 := sc * p in
  if R1 <? 2 ^ (rSB c - rWB c)
  then {| sL := L1 * 2 ^ rWB c; sR := R1 * 2 ^ rWB c; sk := S (sk s) |}
  else {| sL := L1; sR := R1; sk := sk s |}.

Fixpoint spec_run (c : rcfg) (l : list (N * N * N)) (s : sstate) : sstate :=
  match l with
  | [] => s
  | (P, cum, p) :: r => spec_run c r (spec_step c P cum p s)
  end.

(* the [n] least significant base-[B] digits of [v], least significant first *)
Fixpoint digits_rev (B : N) (n : nat) (v : N) : list N :=
  match n with
  | O => []
  | S n' => v mod B :: digits_rev B n' (v / B)
  end.
Definition digits (B : N) (n : nat) (v : N) : list N := rev (digits_rev B n v).

(* seal point: the smallest multiple of T = 2^(SB-WB) that is >= L, written with k+1
   digits; followed by a zero digit iff the next multiple of T is not below L+R in the
   last emitted digit (i.e. one digit would not pin the interval against any continuation) *)
Definition spec_seal_value (c : rcfg) (s : sstate) : N :=
  (sL s + 2 ^ (rSB c - rWB c) - 1) / 2 ^ (rSB c - rWB c).

Definition spec_seal_two (c : rcfg) (s : sstate) : bool :=
  ((sL s + sR s) / 2 ^ (rSB c - rWB c)) mod 2 ^ rWB c =? spec_seal_value c s mod 2 ^ rWB c.

Definition spec_seal_digits (c : rcfg) (s : sstate) : list N :=
  digits (2 ^ rWB c) (S (sk s)) (spec_seal_value c s) ++ (if spec_seal_two c s then [0] else []).

(* the compressed text of a message given as its (P, cum, p) triples *)
Definition spec_words (c : rcfg) (l : list (N * N * N)) : list N :=
  match l with
  | [] => []
  | _ => spec_seal_digits c (spec_run c l (spec_init c))
  end.

(* ---- exact-arithmetic decoder over a text (words; missing words read as zero) ---- *)

(* value of the first [j] words of [t] as a base-B number *)
Fixpoint tval (wb : N) (t : list N) (j : nat) : N :=
  match j with
  | O => 0
  | S j' => N.shiftl (tval wb t j') wb + nth j' t 0       (* = tval t j' * 2^wb + t[j'] *)
  end.

Definition wps (c : rcfg) : nat := N.to_nat (rSB c / rWB c).

(* window of the text the state (L, R, k) looks at: the first k + SB/WB words *)
Definition spec_window (c : rcfg) (t : list N) (s : sstate) : N :=
  tval (rWB c) t (sk s + wps c).

Definition spec_quantile (c : rcfg) (P : N) (t : list N) (s : sstate) : N :=
  (spec_window c t s - sL s) / (sR s / 2 ^ P).

Definition spec_decode (c : rcfg) (m : emodel) (t : list N) (s : sstate) : option (Z * sstate) :=
  let q := spec_quantile c (em_prec m) t s in
  if 2 ^ em_prec m <=? q then None
  else let '(x, cum, p) := em_dec m q in Some (x, spec_step c (em_prec m) cum p s).

Fixpoint spec_decode_all (c : rcfg) (ms : list emodel) (t : list N) (s : sstate)
  : option (list Z * sstate) :=
  match ms with
  | [] => Some ([], s)
  | m :: r =>
      match spec_decode c m t s with
      | Some (x, s') =>
          match spec_decode_all c r t s' with
          | Some (xs, s'') => Some (x :: xs, s'')
          | None => None
          end
      | None => None
      end
  end.

(* a message as the coder sees it *)
Fixpoint msg_triples (l : list (emodel * Z)) : option (list (N * N * N)) :=
  match l with
  | [] => Some []
  | (m, x) :: r =>
      match em_enc m x, msg_triples r with
      | Some (cum, p), Some tr => Some ((em_prec m, cum, p) :: tr)
      | _, _ => None
      end
  end.

(* ---- the refinement relation between the concrete encoder and the spec (Appendix A) ---- *)

(* value of a word list whose head is the LEAST significant digit *)
Fixpoint val_rev (wb : N) (l : list N) : N :=
  match l with
  | [] => 0
  | x :: r => N.shiftl (val_rev wb r) wb + x              (* = val_rev r * 2^wb + x *)
  end.

(* held-back words, last one first *)
Definition held_rev (c : rcfg) (sit : situation) : list N :=
  match sit with
  | Normal => []
  | Inverted n w => repeat (2 ^ rWB c - 1) (N.to_nat (n - 1)) ++ [w]
  end.

Definition sit_okb (c : rcfg) (e : renc) : bool :=
  match e_sit e with
  | Normal => e_lower e + e_range e <? 2 ^ rSB c
  | Inverted n w => (2 ^ rSB c <=? e_lower e + e_range e) && (w + 2 <=? 2 ^ rWB c) && (1 <=? n)
  end.

Fixpoint list_eqbN (a b : list N) : bool :=
  match a, b with
  | [], [] => true
  | x :: a', y :: b' => (x =? y) && list_eqbN a' b'
  | _, _ => false
  end.

(* executable form of Renc, used by the model-vs-spec differential check in Corr *)
Definition rencb (c : rcfg) (e : renc) (s : sstate) : bool :=
  (e_range e =? sR s) && (e_lower e <? 2 ^ rSB c) &&
  (sL s =? val_rev (rWB c) (held_rev c (e_sit e) ++ e_bulk e) * 2 ^ rSB c + e_lower e) &&
  Nat.eqb (sk s) (length (held_rev c (e_sit e) ++ e_bulk e)) &&
  forallb (fun w => w <? 2 ^ rWB c) (e_bulk e) &&
  sit_okb c e.

(* executable form of Rdec *)
Definition rdecb (c : rcfg) (t : list N) (d : rdec) (s : sstate) : bool :=
  (d_range d =? sR s) &&
  (d_lower d =? sL s mod 2 ^ rSB c) &&
  (d_point d =? spec_window c t s mod 2 ^ rSB c) &&
  (sL s <=? spec_window c t s) && (spec_window c t s <=? sL s + sR s) &&
  list_eqbN (d_rest d) (skipn (sk s + wps c) t).
