//! Family `ans`: histories on `AnsCoder<Word, State, Vec<Word>>` (C01, C04, C06, C08, C09, C10,
//! C12, C18).  Input / output format: see /verif/lib/fam_ans.py (generator) and
//! coq/theories/Corr/Ans_run.v (model runner); the three must agree.
use crate::common::*;
use constriction::stream::stack::AnsCoder;
use constriction::stream::{Decode, Encode, TryCodingError};
use constriction::CoderError;

pub const ERR_IMPOSSIBLE: Int = -1;
pub const ERR_IMPORT: Int = -2;
pub const ERR_BINARY: Int = -3;
pub const ERR_INVALID_MODEL: Int = -4;

macro_rules! with_p {
    ($Pr:ty, $p:expr, [$($lit:literal),*], |$tm:ident| $body:expr, $t:expr) => {
        match $p {
            $( $lit => { let $tm = TM::<$Pr, $lit>::new($t); $body } )*
            other => panic!("harness: precision {} not in menu", other),
        }
    };
}

macro_rules! ans_impl {
    ($name:ident, $W:ty, $S:ty, $Pr:ty, $plist:tt) => {
        pub fn $name(r: &mut Reader, out: &mut Vec<Int>) {
            let models = read_models(r);
            let init_kind = r.next();
            let init_words: Vec<$W> = r.list().into_iter().map(|x| x as $W).collect();
            let mut coder: AnsCoder<$W, $S, Vec<$W>> = match init_kind {
                0 => AnsCoder::new(),
                1 => match AnsCoder::from_compressed(init_words) {
                    Ok(c) => c,
                    Err(_) => {
                        out.push(ERR_IMPORT);
                        return;
                    }
                },
                2 => AnsCoder::from_binary(init_words).unwrap(),
                11 | 12 => {
                    // the iterator-backed constructors (words handed over last word first), then
                    // moved onto a Vec through raw parts
                    let it = init_words.iter().rev().map(|&w| Ok::<$W, core::convert::Infallible>(w));
                    let (backend, state) = if init_kind == 11 {
                        match AnsCoder::<$W, $S, _>::from_reversed_compressed_iter(it) {
                            Ok(c) => c.into_raw_parts(),
                            Err(_) => {
                                out.push(ERR_IMPORT);
                                return;
                            }
                        }
                    } else {
                        AnsCoder::<$W, $S, _>::from_reversed_binary_iter(it).unwrap().into_raw_parts()
                    };
                    let mut rest: Vec<$W> = backend.into_iter().map(|x| x.unwrap()).collect();
                    rest.reverse();
                    AnsCoder::from_raw_parts(rest, state)
                }
                other => panic!("harness: unknown ans init kind {}", other),
            };
            // op 16 forks a twin that receives every later encode/decode/reload but none of the
            // inspections (C08): its results are printed right after the main coder's
            let mut twin: Option<AnsCoder<$W, $S, Vec<$W>>> = None;
            let mut stash: Option<AnsCoder<$W, $S, Vec<$W>>> = None;
            let mut clones = 0u32;
            while !r.done() {
                let op = r.next();
                match op {
                    1 => {
                        let m = &models[r.us()];
                        let sym = r.next() as i64;
                        let res = with_p!($Pr, m.p, $plist, |tm| coder.encode_symbol(sym, tm), &m.t);
                        out.push(match res {
                            Ok(()) => 0,
                            Err(CoderError::Frontend(_)) => ERR_IMPOSSIBLE,
                            Err(CoderError::Backend(e)) => match e {},
                        });
                        if let Some(t) = twin.as_mut() {
                            let res = with_p!($Pr, m.p, $plist, |tm| t.encode_symbol(sym, tm), &m.t);
                            out.push(if res.is_ok() { 0 } else { ERR_IMPOSSIBLE });
                        }
                    }
                    2 => {
                        let m = &models[r.us()];
                        let res = with_p!($Pr, m.p, $plist, |tm| coder.decode_symbol(tm), &m.t);
                        match res {
                            Ok(s) => out.push(s as Int),
                            Err(_) => unreachable!(),
                        }
                        if let Some(t) = twin.as_mut() {
                            let s = with_p!($Pr, m.p, $plist, |tm| t.decode_symbol(tm), &m.t).unwrap();
                            out.push(s as Int);
                        }
                    }
                    16 => {
                        twin = Some(coder.clone());
                        out.push(0);
                    }
                    3 => {
                        let ws = coder.into_compressed().unwrap();
                        match AnsCoder::from_compressed(ws) {
                            Ok(c) => {
                                coder = c;
                                out.push(0);
                            }
                            Err(ws) => {
                                // must not happen; keep going from raw parts so the run stays total
                                coder = AnsCoder::from_raw_parts(ws, 0);
                                out.push(ERR_IMPORT);
                            }
                        }
                    }
                    4 => {
                        let ws: Vec<$W> = coder.iter_compressed().collect();
                        out.push(ws.len() as Int);
                        out.extend(ws.iter().map(|&w| w as Int));
                    }
                    5 => {
                        let g = coder.get_compressed().unwrap();
                        out.push(g.len() as Int);
                        out.extend(g.iter().map(|&w| w as Int));
                    }
                    6 => match coder.get_binary() {
                        Ok(g) => {
                            out.push(g.len() as Int);
                            out.extend(g.iter().map(|&w| w as Int));
                        }
                        Err(_) => out.push(ERR_BINARY),
                    },
                    7 => {
                        out.push(coder.num_words() as Int);
                        out.push(coder.num_bits() as Int);
                        out.push(coder.num_valid_bits() as Int);
                        out.push(coder.is_empty() as Int);
                    }
                    8 => match coder.clone().into_binary() {
                        Ok(ws) => {
                            out.push(ws.len() as Int);
                            out.extend(ws.iter().map(|&w| w as Int));
                        }
                        Err(_) => out.push(ERR_BINARY),
                    },
                    9 | 10 => {
                        let m = &models[r.us()];
                        let syms: Vec<i64> = r.list().into_iter().map(|x| x as i64).collect();
                        let res = with_p!($Pr, m.p, $plist, |tm| {
                            if op == 9 {
                                coder.encode_iid_symbols(syms.iter(), tm)
                            } else {
                                coder.encode_iid_symbols_reverse(syms.iter(), tm)
                            }
                        }, &m.t);
                        out.push(match res {
                            Ok(()) => 0,
                            Err(CoderError::Frontend(_)) => ERR_IMPOSSIBLE,
                            Err(CoderError::Backend(e)) => match e {},
                        });
                    }
                    11 => {
                        let m = &models[r.us()];
                        let syms: Vec<i64> = r.list().into_iter().map(|x| x as i64).collect();
                        let fail_at = r.us();
                        let res = with_p!($Pr, m.p, $plist, |tm| {
                            coder.try_encode_symbols(syms.iter().enumerate().map(|(i, s)| {
                                if i == fail_at { Err(()) } else { Ok((*s, tm)) }
                            }))
                        }, &m.t);
                        out.push(match res {
                            Ok(()) => 0,
                            Err(TryCodingError::CodingError(CoderError::Frontend(_))) => ERR_IMPOSSIBLE,
                            Err(TryCodingError::CodingError(CoderError::Backend(e))) => match e {},
                            Err(TryCodingError::InvalidEntropyModel(())) => ERR_INVALID_MODEL,
                        });
                    }
                    18 => {
                        // try_encode_symbols_reverse: Err item at index f of the (forward) item list
                        let m = &models[r.us()];
                        let syms: Vec<i64> = r.list().into_iter().map(|x| x as i64).collect();
                        let fail_at = r.us();
                        let res = with_p!($Pr, m.p, $plist, |tm| {
                            let items: Vec<Result<(i64, _), ()>> = syms.iter().enumerate().map(|(i, s)| {
                                if i == fail_at { Err(()) } else { Ok((*s, tm)) }
                            }).collect();
                            coder.try_encode_symbols_reverse(items)
                        }, &m.t);
                        out.push(match res {
                            Ok(()) => 0,
                            Err(TryCodingError::CodingError(CoderError::Frontend(_))) => ERR_IMPOSSIBLE,
                            Err(TryCodingError::CodingError(CoderError::Backend(e))) => match e {},
                            Err(TryCodingError::InvalidEntropyModel(())) => ERR_INVALID_MODEL,
                        });
                    }
                    19 | 20 => {
                        // encode_symbols_reverse / encode_symbols with (symbol, model) pairs
                        let m = &models[r.us()];
                        let syms: Vec<i64> = r.list().into_iter().map(|x| x as i64).collect();
                        let res = with_p!($Pr, m.p, $plist, |tm| {
                            let items: Vec<(i64, _)> = syms.iter().map(|s| (*s, tm)).collect();
                            if op == 19 {
                                coder.encode_symbols_reverse(items)
                            } else {
                                coder.encode_symbols(items)
                            }
                        }, &m.t);
                        out.push(match res {
                            Ok(()) => 0,
                            Err(CoderError::Frontend(_)) => ERR_IMPOSSIBLE,
                            Err(CoderError::Backend(e)) => match e {},
                        });
                    }
                    21 => {
                        // decode_symbols with k copies of the model, drained with a cap
                        let m = &models[r.us()];
                        let k = r.us();
                        let res: Vec<i64> = with_p!($Pr, m.p, $plist, |tm| {
                            coder.decode_symbols((0..k).map(|_| tm)).take(k + 4).map(|x| x.unwrap()).collect()
                        }, &m.t);
                        out.push(res.len() as Int);
                        out.extend(res.iter().map(|&s| s as Int));
                    }
                    22 => {
                        // try_decode_symbols: the model at index f is an Err item
                        let m = &models[r.us()];
                        let k = r.us();
                        let fail_at = r.us();
                        let res: Vec<Int> = with_p!($Pr, m.p, $plist, |tm| {
                            coder
                                .try_decode_symbols((0..k).map(|i| if i == fail_at { Err(()) } else { Ok(tm) }))
                                .take(k + 4)
                                .map(|x| match x {
                                    Ok(s) => s as Int,
                                    Err(TryCodingError::InvalidEntropyModel(())) => ERR_INVALID_MODEL * 1000,
                                    Err(_) => unreachable!(),
                                })
                                .collect()
                        }, &m.t);
                        out.push(res.len() as Int);
                        out.extend(res);
                    }
                    12 => push_raw(&coder, out),
                    13 => {
                        let m = &models[r.us()];
                        let k = r.us();
                        let res: Vec<i64> = with_p!($Pr, m.p, $plist, |tm| {
                            coder.decode_iid_symbols(k, tm).map(|x| x.unwrap()).collect()
                        }, &m.t);
                        out.extend(res.iter().map(|&s| s as Int));
                    }
                    23 => {
                        // op 13 carried out on a Cursor-backed decoder which is then flipped twice
                        // (into_reversed().into_reversed()) and turned back into the Vec-backed
                        // coder: the words below the cursor position must survive all of that
                        let m = &models[r.us()];
                        let k = r.us();
                        let c = core::mem::replace(&mut coder, AnsCoder::new());
                        let mut dec = c.into_seekable_decoder();
                        let res: Vec<i64> = with_p!($Pr, m.p, $plist, |tm| {
                            dec.decode_iid_symbols(k, tm).map(|x| x.unwrap()).collect()
                        }, &m.t);
                        let dec = dec.into_reversed().into_reversed();
                        let (cursor, state) = dec.into_raw_parts();
                        let (mut buf, pos) = cursor.into_buf_and_pos();
                        buf.truncate(pos);
                        coder = AnsCoder::from_raw_parts(buf, state);
                        out.extend(res.iter().map(|&s| s as Int));
                    }
                    14 => {
                        // the coder is replaced by a copy of itself: alternately made with clone()
                        // and with clone_from() into a STALE scratch coder (the coder as it was at
                        // an earlier op 14); a copy is the same coder whatever the scratch held
                        clones += 1;
                        if clones % 2 == 1 {
                            let c2 = coder.clone();
                            stash = Some(core::mem::replace(&mut coder, c2));
                        } else {
                            let mut scratch = stash.take().unwrap_or_else(AnsCoder::new);
                            scratch.clone_from(&coder);
                            stash = Some(core::mem::replace(&mut coder, scratch));
                        }
                        out.push(0);
                    }
                    15 => {
                        // bits-back round trip: decode with a sequence of models, then encode the
                        // decoded symbols back in reverse order with the same models
                        let seq: Vec<usize> = r.list().into_iter().map(|x| x as usize).collect();
                        let mut syms = Vec::new();
                        for &mi in &seq {
                            let m = &models[mi];
                            let s = with_p!($Pr, m.p, $plist, |tm| coder.decode_symbol(tm), &m.t).unwrap();
                            syms.push(s);
                            out.push(s as Int);
                        }
                        for (&mi, &s) in seq.iter().zip(syms.iter()).rev() {
                            let m = &models[mi];
                            let res = with_p!($Pr, m.p, $plist, |tm| coder.encode_symbol(s, tm), &m.t);
                            out.push(if res.is_ok() { 0 } else { ERR_IMPOSSIBLE });
                        }
                    }
                    17 => {
                        // exhaustive single-step sweep: for every state s in [lo, hi) and every entry
                        // of model m: coder = from_raw_parts(bulk, s) with bulk = [0xA5] if s is at
                        // or above the threshold (documented invariant) else []; encode the entry's
                        // symbol, then decode it again. Results are folded into a checksum per call.
                        let m = &models[r.us()];
                        let lo = r.u();
                        let hi = r.u();
                        let thr: u64 = 1u64 << (<$S>::BITS - <$W>::BITS);
                        let mut acc: u64 = 0;
                        let mut mix = |x: u64| { acc = (acc.wrapping_mul(1000003) ^ x) & 0x1FFF_FFFF_FFFF_FFFF; };
                        for s in lo..hi {
                            for e in &m.t {
                                let bulk: Vec<$W> = if s >= thr { vec![0xA5u8 as $W] } else { vec![] };
                                let mut c2: AnsCoder<$W, $S, Vec<$W>> = AnsCoder::from_raw_parts(bulk, s as $S);
                                let res = with_p!($Pr, m.p, $plist, |tm| c2.encode_symbol(e.0, tm), &m.t);
                                mix(res.is_ok() as u64);
                                {
                                    let (b, st) = c2.clone().into_raw_parts();
                                    mix(b.len() as u64);
                                    for w in &b { mix(*w as u64); }
                                    mix(st as u64);
                                }
                                let d = with_p!($Pr, m.p, $plist, |tm| c2.decode_symbol(tm), &m.t).unwrap();
                                mix(d as u64);
                                let (b, st) = c2.into_raw_parts();
                                mix(b.len() as u64);
                                mix(st as u64);
                            }
                        }
                        out.push(acc as Int);
                    }
                    other => panic!("harness: unknown ans op {}", other),
                }
            }
            push_raw(&coder, out);
            if let Some(t) = twin.as_ref() {
                push_raw(t, out);
            }

            fn push_raw(coder: &AnsCoder<$W, $S, Vec<$W>>, out: &mut Vec<Int>) {
                let (bulk, state) = coder.clone().into_raw_parts();
                out.push(bulk.len() as Int);
                out.extend(bulk.iter().map(|&w| w as Int));
                out.push(state as Int);
            }
        }
    };
}

ans_impl!(ans_8_16_8, u8, u16, u8, [1, 2, 3, 4, 5, 6, 7, 8]);
ans_impl!(ans_8_32_8, u8, u32, u8, [1, 2, 3, 4, 5, 6, 7, 8]);
ans_impl!(ans_8_64_8, u8, u64, u8, [1, 2, 3, 4, 5, 6, 7, 8]);
ans_impl!(ans_16_32_16, u16, u32, u16, [1, 2, 3, 4, 5, 6, 7, 8, 9, 10, 11, 12, 13, 14, 15, 16]);
ans_impl!(ans_16_32_8, u16, u32, u8, [1, 2, 3, 4, 5, 6, 7, 8]);
ans_impl!(ans_16_64_16, u16, u64, u16, [1, 2, 3, 4, 5, 6, 7, 8, 9, 10, 11, 12, 13, 14, 15, 16]);
ans_impl!(ans_32_64_32, u32, u64, u32, [1, 2, 7, 8, 12, 16, 23, 24, 25, 31, 32]);
ans_impl!(ans_32_64_16, u32, u64, u16, [1, 2, 3, 4, 5, 6, 7, 8, 9, 10, 11, 12, 13, 14, 15, 16]);

pub fn run(r: &mut Reader, out: &mut Vec<Int>) {
    let wb = r.next();
    let sb = r.next();
    let pb = r.next();
    match (wb, sb, pb) {
        (8, 16, 8) => ans_8_16_8(r, out),
        (8, 32, 8) => ans_8_32_8(r, out),
        (8, 64, 8) => ans_8_64_8(r, out),
        (16, 32, 16) => ans_16_32_16(r, out),
        (16, 32, 8) => ans_16_32_8(r, out),
        (16, 64, 16) => ans_16_64_16(r, out),
        (32, 64, 32) => ans_32_64_32(r, out),
        (32, 64, 16) => ans_32_64_16(r, out),
        _ => panic!("harness: ans instance ({},{},{}) not in menu", wb, sb, pb),
    }
}
