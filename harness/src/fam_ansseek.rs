//! Family `ansseek`: random access on the stack coder (C07).
//! Input: wb sb pb <models> n (m sym)*n kind ops..
//!   the n symbols are encoded one by one on an empty coder; a snapshot `pos()` is taken before
//!   the first and after every symbol (n+1 snapshots, printed first as pos,state pairs).
//!   kind 0: as_seekable_decoder (borrowed cursor), 1: into_seekable_decoder (owned cursor),
//!        2: the Vec-backed coder itself (seek truncates),
//!        3: from_reversed_compressed over the reversed words, positions mapped to len - pos
//!           (ops 3 and 4 use the reversed coordinates),
//!        4: kind 3 converted back with into_reversed(): a plain cursor over ALL words (the
//!           words of the state lie beyond the cursor), original coordinates,
//!        5: kind 1 converted with into_reversed(): reversed cursor over the bulk words only,
//!           reversed coordinates relative to the bulk length.
//!   ops: 1 i      seek(snapshot i)          -> 0 | -6
//!        2 m      decode_symbol(model m)    -> sym
//!        3 p s    seek((p, s))              -> 0 | -6
//!        4        pos()                     -> pos state
//!        5        is_empty / maybe_exhausted -> 0|1
use crate::common::*;
use constriction::stream::stack::AnsCoder;
use constriction::stream::{Decode, Encode};
use constriction::{Pos, Seek};

pub const ERR_SEEK: Int = -6;

macro_rules! with_p {
    ($Pr:ty, $p:expr, [$($lit:literal),*], |$tm:ident| $body:expr, $t:expr) => {
        match $p {
            $( $lit => { let $tm = TM::<$Pr, $lit>::new($t); $body } )*
            other => panic!("harness: precision {} not in menu", other),
        }
    };
}

macro_rules! dec_loop {
    ($dec:expr, $r:expr, $out:expr, $models:expr, $snaps:expr, $Pr:ty, $S:ty, $plist:tt) => {{
        let mut dec = $dec;
        while !$r.done() {
            match $r.next() {
                1 => {
                    let i = $r.us();
                    $out.push(if dec.seek($snaps[i]).is_ok() { 0 } else { ERR_SEEK });
                }
                2 => {
                    let m = &$models[$r.us()];
                    let s = with_p!($Pr, m.p, $plist, |tm| dec.decode_symbol(tm), &m.t).unwrap();
                    $out.push(s as Int);
                }
                3 => {
                    let p = $r.us();
                    let s = $r.next() as $S;
                    $out.push(if dec.seek((p, s)).is_ok() { 0 } else { ERR_SEEK });
                }
                4 => {
                    let (p, s) = dec.pos();
                    $out.push(p as Int);
                    $out.push(s as Int);
                }
                5 => $out.push(dec.is_empty() as Int),
                other => panic!("harness: unknown ansseek op {}", other),
            }
        }
    }};
}

macro_rules! seek_impl {
    ($name:ident, $W:ty, $S:ty, $Pr:ty, $plist:tt) => {
        pub fn $name(r: &mut Reader, out: &mut Vec<Int>) {
            let models = read_models(r);
            let n = r.us();
            let mut coder: AnsCoder<$W, $S, Vec<$W>> = AnsCoder::new();
            let mut snaps: Vec<(usize, $S)> = vec![coder.pos()];
            for _ in 0..n {
                let m = &models[r.us()];
                let sym = r.next() as i64;
                with_p!($Pr, m.p, $plist, |tm| coder.encode_symbol(sym, tm), &m.t).unwrap();
                snaps.push(coder.pos());
            }
            for &(p, s) in &snaps {
                out.push(p as Int);
                out.push(s as Int);
            }
            match r.next() {
                0 => dec_loop!(coder.as_seekable_decoder(), r, out, models, snaps, $Pr, $S, $plist),
                1 => dec_loop!(coder.into_seekable_decoder(), r, out, models, snaps, $Pr, $S, $plist),
                2 => dec_loop!(coder, r, out, models, snaps, $Pr, $S, $plist),
                4 => {
                    let mut compressed = coder.into_compressed().unwrap();
                    compressed.reverse();
                    let dec = AnsCoder::<$W, $S, _>::from_reversed_compressed(compressed).unwrap();
                    dec_loop!(dec.into_reversed(), r, out, models, snaps, $Pr, $S, $plist)
                }
                5 => {
                    let total = snaps[n].0;
                    let rsnaps: Vec<(usize, $S)> = snaps.iter().map(|&(p, s)| (total - p, s)).collect();
                    let dec = coder.into_seekable_decoder().into_reversed();
                    dec_loop!(dec, r, out, models, rsnaps, $Pr, $S, $plist)
                }
                _ => {
                    // reversed backend: the compressed words are reversed so that they are read
                    // front to back; positions are mapped to `len - pos` (see `Seek::seek` docs)
                    let mut compressed = coder.into_compressed().unwrap();
                    let total = compressed.len();
                    compressed.reverse();
                    let rsnaps: Vec<(usize, $S)> = snaps.iter().map(|&(p, s)| (total - p, s)).collect();
                    let dec = AnsCoder::<$W, $S, _>::from_reversed_compressed(compressed).unwrap();
                    dec_loop!(dec, r, out, models, rsnaps, $Pr, $S, $plist)
                }
            }
        }
    };
}

seek_impl!(seek_8_16_8, u8, u16, u8, [1, 2, 3, 4, 5, 6, 7, 8]);
seek_impl!(seek_8_32_8, u8, u32, u8, [1, 2, 3, 4, 5, 6, 7, 8]);
seek_impl!(seek_16_32_16, u16, u32, u16, [1, 2, 3, 4, 5, 6, 7, 8, 9, 10, 11, 12, 13, 14, 15, 16]);
seek_impl!(seek_32_64_32, u32, u64, u32, [1, 2, 7, 8, 12, 16, 23, 24, 25, 31, 32]);
seek_impl!(seek_32_64_16, u32, u64, u16, [1, 2, 3, 4, 5, 6, 7, 8, 9, 10, 11, 12, 13, 14, 15, 16]);

pub fn run(r: &mut Reader, out: &mut Vec<Int>) {
    let wb = r.next();
    let sb = r.next();
    let pb = r.next();
    match (wb, sb, pb) {
        (8, 16, 8) => seek_8_16_8(r, out),
        (8, 32, 8) => seek_8_32_8(r, out),
        (16, 32, 16) => seek_16_32_16(r, out),
        (32, 64, 32) => seek_32_64_32(r, out),
        (32, 64, 16) => seek_32_64_16(r, out),
        _ => panic!("harness: ansseek instance ({},{},{}) not in menu", wb, sb, pb),
    }
}
