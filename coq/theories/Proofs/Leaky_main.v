(* Proofs/Leaky_main.v -- the statements of Props/C03_leaky.v assembled from
   Leaky_base / Leaky_enc / Leaky_dec. *)
From CV Require Import Base.Bits Model.EModel Model.Leaky.
From CV Require Import Proofs.Leaky_base Proofs.Leaky_enc Proofs.Leaky_search Proofs.Leaky_dec.
From Coq Require Import ZArith Lia.
Set Default Timeout 60.
Open Scope Z_scope.

Lemma satS_in c z : wf_lcfg c -> in_sym c (satS c z).
Proof.
  intros Hwf. unfold satS, in_sym. pose proof (smin_le0 c Hwf). pose proof (smax_ge1 c Hwf). lia.
Qed.

Lemma satS_id c z : in_sym c z -> satS c z = z.
Proof. unfold satS, in_sym. lia. Qed.

Lemma fuel_ok c : wf_lcfg c ->
  2 * kmax c + 8 < Z.of_nat (dec_fuel c) /\ (Z.to_nat (kmax c) < inner_fuel c)%nat.
Proof.
  intros Hwf. pose proof (kmax_nonneg c Hwf). pose proof (sw_ge2 c Hwf).
  unfold dec_fuel, inner_fuel, kmax in *. destruct (sgn c); lia.
Qed.

Section Main.
Variable c : lcfg.
Variable dbg : bool.
Variables lo hi : Z.
Variable nl : Z -> N.
Variable fw : N.
Hypothesis Hwf : wf_lcfg c.
Hypothesis Hlo : in_sym c lo.
Hypothesis Hhi : in_sym c hi.
Hypothesis Hnew : lq_new c lo hi = Some fw.
Hypothesis Hbd : forall x, lo < x <= hi -> (nl x <= fw)%N.

Notation L := (LN c lo hi nl).

Lemma new_facts : lo < hi /\ Z.of_N fw + (hi - lo) <= 2 ^ Z.of_N (PR c) - 1.
Proof. destruct (lq_new_some c Hwf lo hi fw Hlo Hhi Hnew) as (H1 & _ & H3 & _). auto. Qed.

(* termination + result, bounded nl only, explicit fuel *)
Lemma dec_total_fuel q fuel ifuel hint :
  (q < 2 ^ PR c)%N -> in_sym c hint ->
  (N.to_nat (2 * SYMB c + 8) <= fuel)%nat -> (N.to_nat (SYMB c + 1) <= ifuel)%nat ->
  exists s, lo <= s <= hi /\ (L s <= q < L (s + 1))%N
    /\ lq_dec c dbg lo hi nl q ifuel fuel hint = DOk s (L s) (L (s + 1) - L s)
    /\ lq_enc c dbg lo hi nl s = EOk (L s) (L (s + 1) - L s).
Proof.
  intros Hq Hh Hf Hif. destruct new_facts as (Hlt & Hfw).
  destruct (fuel_ok c Hwf) as (Hf1 & Hf2). unfold dec_fuel, inner_fuel in *.
  destruct (lq_dec_correct c Hwf dbg lo hi nl fw Hlo Hhi Hlt Hfw Hbd q Hq ifuel ltac:(lia) fuel hint Hh ltac:(lia))
    as (s & Hs & Hq1 & Hd).
  exists s. split; [exact Hs|]. split; [exact Hq1|]. split; [exact Hd|].
  apply (enc_exact c Hwf dbg lo hi nl fw Hlo Hhi Hlt Hfw Hbd s Hs). lia.
Qed.

Lemma dec_total q hintv : (q < 2 ^ PR c)%N ->
  exists s, lo <= s <= hi /\ (L s <= q < L (s + 1))%N
    /\ lq_quantile c dbg lo hi nl hintv q = DOk s (L s) (L (s + 1) - L s)
    /\ lq_enc c dbg lo hi nl s = EOk (L s) (L (s + 1) - L s).
Proof.
  intros Hq. unfold lq_quantile.
  apply dec_total_fuel; [exact Hq|apply satS_in; exact Hwf| |]; unfold dec_fuel, inner_fuel; lia.
Qed.

Lemma dec_total_any q fuel ifuel hint :
  (q < 2 ^ PR c)%N -> in_sym c hint ->
  (N.to_nat (2 * SYMB c + 8) <= fuel)%nat -> (N.to_nat (SYMB c + 1) <= ifuel)%nat ->
  exists s cu p, lq_dec c dbg lo hi nl q ifuel fuel hint = DOk s cu p
    /\ lo <= s <= hi /\ lq_enc c dbg lo hi nl s = EOk cu p /\ (cu <= q < cu + p)%N.
Proof.
  intros Hq Hh Hf Hif.
  destruct (dec_total_fuel q fuel ifuel hint Hq Hh Hf Hif) as (s & Hs & Hq1 & Hd & He).
  eexists s, _, _. split; [exact Hd|]. split; [exact Hs|]. split; [exact He|]. lia.
Qed.

Hypothesis Hmono : forall x y, lo < x -> x <= y -> y <= hi -> (nl x <= nl y)%N.

Lemma enc_char s cu p : lq_enc c dbg lo hi nl s = EOk cu p ->
  lo <= s <= hi /\ cu = L s /\ p = (L (s + 1) - L s)%N /\ (L s < L (s + 1))%N
  /\ (L (s + 1) <= 2 ^ PR c)%N /\ (p < 2 ^ PR c)%N.
Proof.
  intros He. destruct new_facts as (Hlt & Hfw).
  pose proof (enc_some_inside c dbg lo hi nl fw Hbd s cu p He) as Hs.
  destruct (enc_valid c Hwf dbg lo hi nl fw Hlo Hhi Hlt Hfw Hbd Hmono s Hs) as (He' & Hp & Hsum & Hone).
  rewrite He' in He. injection He as <- <-.
  split; [exact Hs|]. split; [reflexivity|]. split; [reflexivity|]. split; [lia|].
  split; [apply (LN_le_top c lo hi nl fw Hlt Hfw Hbd)|exact Hone].
Qed.

Lemma valid_all :
  (exists t, lq_table c dbg lo hi nl = Some t /\ wf_table (PR c) t
             /\ (forall s cu p, In (s, cu, p) t <-> lq_enc c dbg lo hi nl s = EOk cu p))
  /\ (forall s, lo <= s <= hi -> exists cu p, lq_enc c dbg lo hi nl s = EOk cu p)
  /\ (forall s cu p, lq_enc c dbg lo hi nl s = EOk cu p ->
        (0 < p)%N /\ (p < 2 ^ PR c)%N /\ (cu + p <= 2 ^ PR c)%N)
  /\ (forall hintv q, (q < 2 ^ PR c)%N ->
        exists s cu p, lq_quantile c dbg lo hi nl hintv q = DOk s cu p
                       /\ lq_enc c dbg lo hi nl s = EOk cu p /\ (cu <= q < cu + p)%N)
  /\ (forall hintv s cu p q, lq_enc c dbg lo hi nl s = EOk cu p -> (cu <= q < cu + p)%N ->
        lq_quantile c dbg lo hi nl hintv q = DOk s cu p).
Proof.
  destruct new_facts as (Hlt & Hfw).
  split; [|split; [|split; [|split]]].
  - exists (ideal_table c lo hi nl).
    split; [apply (table_exact c Hwf dbg lo hi nl fw Hlo Hhi Hlt Hfw Hbd Hmono)|].
    split; [apply (table_wf c Hwf dbg lo hi nl fw Hlo Hhi Hlt Hfw Hbd Hmono)|].
    intros s cu p. rewrite (table_entries c lo hi nl fw Hlt Hbd Hmono). split.
    + intros (s' & Hs' & He). unfold entry in He. injection He as -> -> ->.
      apply (enc_valid c Hwf dbg lo hi nl fw Hlo Hhi Hlt Hfw Hbd Hmono s' Hs').
    + intros He. destruct (enc_char s cu p He) as (Hs & -> & -> & _).
      exists s. split; [exact Hs|reflexivity].
  - intros s Hs. eexists. eexists.
    apply (enc_valid c Hwf dbg lo hi nl fw Hlo Hhi Hlt Hfw Hbd Hmono s Hs).
  - intros s cu p He. destruct (enc_char s cu p He) as (Hs & -> & -> & Hlt' & Htop & Hone). lia.
  - intros hintv q Hq. destruct (dec_total q hintv Hq) as (s & Hs & Hq1 & Hd & He).
    exists s, (L s), (L (s + 1) - L s)%N. split; [exact Hd|]. split; [exact He|]. lia.
  - intros hintv s cu p q He Hq.
    destruct (enc_char s cu p He) as (Hs & -> & -> & Hlt' & Htop & Hone).
    assert (Hq' : (q < 2 ^ PR c)%N) by lia.
    destruct (dec_total q hintv Hq') as (s' & Hs' & Hq1 & Hd & _).
    assert (s' = s).
    { apply (interval_unique c lo hi nl fw Hlt Hfw Hbd Hmono s' s q Hs' Hs Hq1). lia. }
    subst s'. exact Hd.
Qed.

Lemma leaky_wf_model hintf : wf_model (leaky_emodel c dbg lo hi nl hintf).
Proof.
  destruct valid_all as (_ & _ & Henc & Hdec & Hinv).
  constructor; cbn [leaky_emodel em_prec em_enc em_dec].
  - destruct Hwf as (_ & H & _). exact H.
  - intros s cu p He.
    destruct (lq_enc c dbg lo hi nl s) as [cu' p'| |] eqn:E; try discriminate.
    injection He as -> ->. destruct (Henc s cu p E) as (H1 & H2 & H3).
    split; [split; assumption|]. split; [exact H2|].
    intros q Hq. rewrite (Hinv (hintf q) s cu p q E Hq). reflexivity.
  - intros q Hq. destruct (Hdec (hintf q) q Hq) as (s & cu & p & Hd & He & Hr).
    rewrite Hd, He. split; [reflexivity|exact Hr].
Qed.

Lemma table_eq_direct :
  exists t, lq_table c dbg lo hi nl = Some t
    /\ (forall s cu p, In (s, cu, p) t <-> lq_enc c dbg lo hi nl s = EOk cu p)
    /\ (forall s, In s (syms t) <-> lo <= s <= hi) /\ NoDup (syms t).
Proof.
  destruct valid_all as ((t & Ht & (_ & _ & Hnd & _) & Hin) & Henc & _).
  exists t. split; [exact Ht|]. split; [exact Hin|]. split; [|exact Hnd].
  intros s. unfold syms. rewrite in_map_iff. split.
  - intros (((s', cu), p) & <- & He). apply Hin in He.
    exact (enc_some_inside c dbg lo hi nl fw Hbd s' cu p He).
  - intros Hs. destruct (Henc s Hs) as (cu & p & He).
    exists (s, cu, p). split; [reflexivity|]. apply Hin. exact He.
Qed.

End Main.

Lemma enc_outside_any c dbg lo hi nl s :
  s < lo \/ hi < s -> lq_enc c dbg lo hi nl s = ENone.
Proof.
  intros H. unfold lq_enc.
  destruct (Z.ltb_spec s lo); [reflexivity|]. destruct (Z.ltb_spec hi s); [reflexivity|]. lia.
Qed.

Lemma dec_bad_quantile c dbg lo hi nl q fuel ifuel hint :
  wf_lcfg c -> (2 ^ PR c <= q)%N -> lq_dec c dbg lo hi nl q ifuel fuel hint = DPanic.
Proof.
  intros Hwf Hq. unfold lq_dec.
  rewrite (maxprob_eq c Hwf). destruct (N.ltb_spec (2 ^ PR c - 1) q); [reflexivity|].
  pose proof (pow2_pos (PR c)). lia.
Qed.

Lemma step_guard c k : wf_lcfg c -> 0 <= k <= kmax c ->
  dbl_step c (2 ^ k) = 2 ^ (if k <? kmax c then k + 1 else k)
  /\ 1 <= 2 ^ k /\ 2 ^ k <= smax c.
Proof.
  intros Hwf Hk. split; [exact (dbl_step_spec c Hwf k Hk)|].
  destruct (pow_kmax_in c Hwf k Hk) as (H1 & _ & H3 & _). split; assumption.
Qed.

Lemma new_rejects c lo hi :
  wf_lcfg c -> in_sym c lo -> in_sym c hi ->
  let sign_ext := sgn c = true /\ (SYMB c < PB c)%N /\ 2 ^ (Z.of_N (SYMB c) - 1) <= hi - lo in
  (hi <= lo -> lq_new c lo hi = None)
  /\ (2 ^ Z.of_N (PR c) < hi - lo + 1 -> lq_new c lo hi = None)
  /\ (forall fw, lq_new c lo hi = Some fw ->
        lo < hi /\ Z.of_N fw + (hi - lo + 1) <= 2 ^ Z.of_N (PR c)
        /\ (~ sign_ext -> Z.of_N fw = 2 ^ Z.of_N (PR c) - (hi - lo + 1)))
  /\ (lo < hi -> hi - lo + 1 <= 2 ^ Z.of_N (PR c) -> ~ sign_ext ->
        lq_new c lo hi = Some (Z.to_N (2 ^ Z.of_N (PR c) - (hi - lo + 1))))
  /\ (sign_ext -> (PR c < PB c)%N -> lq_new c lo hi = None).
Proof.
  intros Hwf Hlo Hhi sign_ext.
  split; [exact (lq_new_reject c lo hi)|].
  split; [intros H; apply (lq_new_too_large c Hwf lo hi); lia|].
  split.
  { intros fw Hn. destruct (lq_new_some c Hwf lo hi fw Hlo Hhi Hn) as (H1 & H2 & H3 & H4).
    split; [exact H1|]. split; [lia|]. intros Hc. specialize (H4 Hc). lia. }
  split.
  { intros H1 H2 H3.
    rewrite (lq_new_accept c Hwf lo hi Hlo Hhi H1 ltac:(lia) H3). f_equal. f_equal. lia. }
  exact (lq_new_sign_ext c Hwf lo hi Hlo Hhi).
Qed.
