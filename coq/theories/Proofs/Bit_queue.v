(* Proofs/Bit_queue.v -- queue encoder = snoc on a list of bits; the queue decoder
   delivers the words' bits in order; export = content + zero padding to a word. *)
From CV Require Import Base.Bits Model.BitCoder Proofs.Bit_core Proofs.Bit_stack.
Set Default Timeout 30.
Open Scope N_scope.

Lemma rev_repeat {A} (x : A) n : rev (repeat x n) = repeat x n.
Proof.
  induction n as [|n IH]; [reflexivity|].
  cbn [repeat rev]. rewrite IH. clear IH.
  induction n as [|n IH]; [reflexivity|]. cbn [repeat app]. rewrite IH. reflexivity.
Qed.

Lemma bits_desc_high n m w :
  w < 2 ^ N.of_nat m -> bits_desc (n + m) w = repeat false n ++ bits_desc m w.
Proof.
  intros Hw. induction n as [|n IH]; [reflexivity|].
  cbn [Nat.add bits_desc repeat app]. rewrite IH. f_equal.
  apply (proj1 (lt_pow2_bits w _) Hw). lia.
Qed.

Lemma bits_from_all_false n : forall k w,
  bits_from n k w = repeat false n <-> (forall i, k <= i < k + N.of_nat n -> N.testbit w i = false).
Proof.
  induction n as [|n IH]; intros k w.
  - split; [intros _ i Hi; lia|reflexivity].
  - cbn [bits_from repeat]. split.
    + intros H i Hi. injection H as H0 H1.
      destruct (N.eq_dec i k) as [->|Hne]; [exact H0|].
      apply (proj1 (IH (N.succ k) w) H1). lia.
    + intros H. f_equal; [apply H; lia|]. apply IH. intros i Hi. apply H. lia.
Qed.

Lemma ones_testbit k i : N.testbit (2 ^ k - 1) i = (i <? k).
Proof.
  replace (2 ^ k - 1) with (N.ones k) by (rewrite N.ones_equiv; lia).
  destruct (N.ltb_spec i k) as [H|H].
  - apply N.ones_spec_low. assumption.
  - apply N.ones_spec_high. assumption.
Qed.

Lemma land_zero_iff a b : N.land a b = 0 <-> (forall i, N.testbit a i && N.testbit b i = false).
Proof.
  split.
  - intros H i. rewrite <- N.land_spec, H. apply N.bits_0.
  - intros H. apply N.bits_inj_0. intros i. rewrite N.land_spec. apply H.
Qed.

Section Queue.
Variable WB : N.
Hypothesis HWB : 0 < WB.

Notation wordbits := (flat_map (bits_desc (N.to_nat WB))).
Notation wordbits_asc := (flat_map (bits_from (N.to_nat WB) 0)).

Lemma wordbits_asc_rev l : wordbits_asc (rev l) = rev (wordbits l).
Proof.
  induction l as [|w l IH]; [reflexivity|].
  cbn [rev flat_map]. rewrite flat_map_app, IH. cbn [flat_map].
  rewrite app_nil_r, bits_from_rev, rev_app_distr. reflexivity.
Qed.

Lemma wordbits_asc_length l : length (wordbits_asc l) = (N.to_nat WB * length l)%nat.
Proof.
  induction l as [|w l IH]; cbn [flat_map length]; [lia|].
  rewrite app_length, bits_from_length, IH. lia.
Qed.

(* ---------- queue encoder ---------- *)
Lemma qe_write_bit_spec bit c :
  bc_inv WB c ->
  bc_inv WB (bc_write_bit WB bit c) /\ abs_queue WB (bc_write_bit WB bit c) = abs_queue WB c ++ [bit].
Proof.
  intros H. destruct (bc_write_bit_spec WB HWB bit c H) as [Hi Ha].
  split; [exact Hi|]. unfold abs_queue. rewrite Ha. reflexivity.
Qed.

Lemma qe_write_bits_spec bits c :
  bc_inv WB c ->
  bc_inv WB (bc_write_bits WB bits c) /\ abs_queue WB (bc_write_bits WB bits c) = abs_queue WB c ++ bits.
Proof.
  intros H. destruct (bc_write_bits_spec WB HWB bits c H) as [Hi Ha].
  split; [exact Hi|]. unfold abs_queue. rewrite Ha, rev_app_distr, rev_involutive. reflexivity.
Qed.

Lemma bc_new_inv : bc_inv WB bc_new.
Proof. apply inv_A. constructor. Qed.

Lemma qe_guard_roundtrip c : qe_guard_drop (qe_guard_new c) = c.
Proof.
  destruct c as [b cw m]. unfold qe_guard_new, qe_guard_drop, qe_flush. cbn [mask].
  destruct (negb (m =? 0)) eqn:E; cbn [bk cur mask tl]; rewrite E; reflexivity.
Qed.

Lemma qe_guard_view_eq c : bc_guard_view (qe_guard_new c) = qe_into_compressed c.
Proof. reflexivity. Qed.

Lemma qe_from_compressed_spec ws :
  Forall (fun w => w < 2 ^ WB) ws ->
  bc_inv WB (qe_from_compressed ws) /\ abs_queue WB (qe_from_compressed ws) = wordbits_asc ws.
Proof.
  intros H. split.
  - apply inv_A. apply Forall_rev. assumption.
  - unfold abs_queue, qe_from_compressed. rewrite abs_A.
    rewrite <- wordbits_asc_rev, rev_involutive. reflexivity.
Qed.

(* the exported words, read as a bit sequence, are the content followed by zero padding *)
Lemma qe_export_bits c :
  bc_inv WB c ->
  wordbits_asc (qe_into_compressed c) = abs_queue WB c ++ qpad WB (abs_queue WB c)
  /\ Forall (fun w => w < 2 ^ WB) (qe_into_compressed c).
Proof.
  destruct c as [b cw m]. intros [Hb [[Hm Hc]|(k & Hk & Hm & Hc)]]; cbn [bk cur mask] in *; subst.
  - unfold qe_into_compressed, qe_flush. cbn [bk cur mask]. rewrite N.eqb_refl. cbn [negb bk].
    split; [|apply Forall_rev; assumption].
    rewrite wordbits_asc_rev. unfold abs_queue. rewrite abs_A.
    unfold qpad. rewrite rev_length, (wordbits_length WB HWB).
    replace (N.of_nat (N.to_nat WB * length b)) with (N.of_nat (length b) * WB) by lia.
    rewrite N.mod_mul by lia. rewrite N.sub_0_r, N.mod_same by lia.
    cbn [N.to_nat repeat]. rewrite app_nil_r. reflexivity.
  - unfold qe_into_compressed, qe_flush. cbn [bk cur mask]. rewrite pow2_eq_0. cbn [negb bk].
    split.
    + rewrite wordbits_asc_rev. unfold abs_queue. rewrite abs_B'. cbn [flat_map].
      rewrite !rev_app_distr, <- app_assoc. f_equal.
      assert (Hhigh : bits_desc (N.to_nat WB) cw
                      = repeat false (N.to_nat (WB - k - 1)) ++ bits_desc (S (N.to_nat k)) cw).
      { replace (N.to_nat WB) with (N.to_nat (WB - k - 1) + S (N.to_nat k))%nat by lia.
        apply bits_desc_high.
        replace (N.of_nat (S (N.to_nat k))) with (k + 1) by lia. assumption. }
      rewrite Hhigh.
      rewrite rev_app_distr, rev_repeat. f_equal.
      unfold qpad. rewrite app_length, !rev_length, bits_desc_length, (wordbits_length WB HWB).
      replace (N.of_nat (N.to_nat WB * length b + S (N.to_nat k))) with ((k + 1) + N.of_nat (length b) * WB) by lia.
      rewrite N.mod_add by lia.
      destruct (N.eq_dec (k + 1) WB) as [Htop|Hmid].
      * rewrite Htop, N.mod_same, N.sub_0_r, N.mod_same by lia.
        replace (WB - k - 1) with 0 by lia. reflexivity.
      * rewrite (N.mod_small (k + 1)) by lia. rewrite N.mod_small by lia.
        do 2 f_equal. lia.
    + apply Forall_rev. constructor; [|assumption].
      eapply N.lt_le_trans; [exact Hc|]. apply pow2_le. lia.
Qed.

(* ---------- queue decoder ---------- *)
Lemma qabs_0 ws cw : abs_qdec WB {| qws := ws; qcur := cw; qmask := 0 |} = wordbits_asc ws.
Proof. reflexivity. Qed.

Lemma qabs_k ws cw k :
  abs_qdec WB {| qws := ws; qcur := cw; qmask := 2 ^ k |}
  = bits_from (N.to_nat (WB - k)) k cw ++ wordbits_asc ws.
Proof. unfold abs_qdec. cbn [qws qcur qmask]. rewrite pow2_eq_0, log2_pow2. reflexivity. Qed.

Lemma after_qread ws cw k :
  k < WB ->
  qd_inv WB {| qws := ws; qcur := cw; qmask := shl WB (2 ^ k) 1 |}
  /\ abs_qdec WB {| qws := ws; qcur := cw; qmask := shl WB (2 ^ k) 1 |}
     = bits_from (N.to_nat (WB - k - 1)) (N.succ k) cw ++ wordbits_asc ws.
Proof.
  intros Hk. destruct (N.eq_dec (k + 1) WB) as [Htop|Hmid].
  - rewrite shl_pow2_top by assumption. split; [left; reflexivity|].
    rewrite qabs_0. replace (WB - k - 1) with 0 by lia. reflexivity.
  - rewrite shl_pow2 by lia. split.
    + right. exists (k + 1). split; [lia|reflexivity].
    + rewrite qabs_k. rewrite N.add_1_r. do 2 f_equal. lia.
Qed.

Lemma qd_read_bit_k ws cw k :
  qd_read_bit WB {| qws := ws; qcur := cw; qmask := 2 ^ k |}
  = (Some (N.testbit cw k), {| qws := ws; qcur := cw; qmask := shl WB (2 ^ k) 1 |}).
Proof.
  unfold qd_read_bit. cbn [qws qcur qmask]. rewrite pow2_eq_0, eg_bit_pow2. reflexivity.
Qed.

Lemma qd_read_bit_0_cons w ws cw :
  qd_read_bit WB {| qws := w :: ws; qcur := cw; qmask := 0 |}
  = (Some (N.testbit w 0), {| qws := ws; qcur := w; qmask := shl WB (2 ^ 0) 1 |}).
Proof.
  unfold qd_read_bit. cbn [qws qcur qmask]. rewrite N.eqb_refl.
  change 1 with (2 ^ 0) at 1. rewrite eg_bit_pow2. reflexivity.
Qed.

(* FIFO: read_bit is uncons on the remaining bits, None exactly when none remain *)
Lemma qd_read_bit_spec d :
  qd_inv WB d ->
  match abs_qdec WB d with
  | [] => qd_read_bit WB d = (None, d)
  | b :: r => exists d', qd_read_bit WB d = (Some b, d') /\ qd_inv WB d' /\ abs_qdec WB d' = r
  end.
Proof.
  destruct d as [ws cw m]. intros [Hm|(k & Hk & Hm)]; cbn [qmask] in Hm; subst.
  - rewrite qabs_0. destruct ws as [|w ws]; [reflexivity|].
    cbn [flat_map].
    assert (Hw : bits_from (N.to_nat WB) 0 w
                 = N.testbit w 0 :: bits_from (N.to_nat (WB - 0 - 1)) (N.succ 0) w).
    { replace (N.to_nat WB) with (S (N.to_nat (WB - 0 - 1))) by lia. reflexivity. }
    rewrite Hw. cbn [app]. eexists. split; [apply qd_read_bit_0_cons|].
    apply after_qread. assumption.
  - rewrite qabs_k. replace (N.to_nat (WB - k)) with (S (N.to_nat (WB - k - 1))) by lia.
    cbn [bits_from app]. eexists. split; [apply qd_read_bit_k|].
    apply after_qread. assumption.
Qed.

Lemma qd_from_compressed_inv ws : qd_inv WB (qd_from_compressed ws).
Proof. left. reflexivity. Qed.

Lemma qd_drain_spec fuel d :
  qd_inv WB d -> (length (abs_qdec WB d) < fuel)%nat ->
  exists d', qd_drain WB fuel d = (abs_qdec WB d, d') /\ qd_inv WB d' /\ abs_qdec WB d' = [].
Proof.
  revert d. induction fuel as [|fuel IH]; intros d Hinv Hlen; [lia|].
  pose proof (qd_read_bit_spec d Hinv) as Hr.
  cbn [qd_drain].
  destruct (abs_qdec WB d) as [|b r] eqn:Ha.
  - rewrite Hr. exists d. split; [reflexivity|]. split; [exact Hinv|exact Ha].
  - destruct Hr as (d1 & Hr & Hi1 & Ha1). rewrite Hr.
    cbn [length] in Hlen.
    destruct (IH d1 Hi1) as (d2 & Hd & Hi2 & Ha2); [rewrite Ha1; lia|].
    rewrite Hd, Ha1. exists d2. split; [reflexivity|]. split; assumption.
Qed.

(* encoder -> decoder: the written bits in order, then only padding zeros *)
Lemma qe_into_decoder_abs c :
  bc_inv WB c ->
  abs_qdec WB (qe_into_decoder c) = abs_queue WB c ++ qpad WB (abs_queue WB c).
Proof.
  intros H. unfold qe_into_decoder, qd_from_compressed. rewrite qabs_0.
  apply (qe_export_bits c H).
Qed.

Lemma qd_maybe_exhausted_spec d :
  qd_inv WB d ->
  (qd_maybe_exhausted WB d = true
   <-> qws d = [] /\ abs_qdec WB d = repeat false (length (abs_qdec WB d))).
Proof.
  destruct d as [ws cw m]. intros [Hm|(k & Hk & Hm)]; cbn [qmask] in Hm; subst.
  - unfold qd_maybe_exhausted. cbn [qws qcur qmask]. rewrite qabs_0.
    rewrite N.add_0_l. rewrite trunc_small by (pose proof (pow2_pos WB); lia).
    rewrite N.lxor_nilpotent, N.land_0_r, N.eqb_refl. cbn [andb].
    destruct ws as [|w ws].
    + split; [intros _; split; reflexivity|reflexivity].
    + split; [discriminate|intros [E _]; discriminate].
  - unfold qd_maybe_exhausted. cbn [qws qcur qmask]. rewrite qabs_k.
    assert (Hm1 : trunc WB (2 ^ k + 2 ^ WB - 1) = 2 ^ k - 1).
    { unfold trunc. pose proof (pow2_pos k). pose proof (pow2_lt k WB Hk).
      replace (2 ^ k + 2 ^ WB - 1) with (2 ^ k - 1 + 1 * 2 ^ WB) by lia.
      rewrite N.mod_add by apply pow2_nz. apply N.mod_small. lia. }
    rewrite Hm1.
    assert (Hbits : (N.land cw (N.lxor (2 ^ k - 1) (2 ^ WB - 1)) =? 0) = true
                    <-> (forall i, k <= i < WB -> N.testbit cw i = false)).
    { rewrite N.eqb_eq, land_zero_iff. split.
      - intros H i Hi. specialize (H i). rewrite N.lxor_spec, !ones_testbit in H.
        assert ((i <? k) = false) as E1 by (apply N.ltb_ge; lia).
        assert ((i <? WB) = true) as E2 by (apply N.ltb_lt; lia).
        rewrite E1, E2 in H. cbn [xorb] in H. rewrite andb_true_r in H. exact H.
      - intros H i. rewrite N.lxor_spec, !ones_testbit.
        destruct (N.ltb_spec i k) as [H1|H1]; destruct (N.ltb_spec i WB) as [H2|H2]; cbn [xorb];
          try apply andb_false_r.
        + lia.
        + rewrite H by lia. reflexivity. }
    destruct ws as [|w ws].
    + rewrite andb_true_r. cbn [flat_map]. rewrite app_nil_r, bits_from_length.
      rewrite bits_from_all_false, Hbits.
      replace (k + N.of_nat (N.to_nat (WB - k))) with WB by lia.
      split; [intros H; split; [reflexivity|exact H]|intros [_ H]; exact H].
    + rewrite andb_false_r. split; [discriminate|intros [E _]; discriminate].
Qed.

End Queue.
