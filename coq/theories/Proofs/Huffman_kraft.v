(* Proofs/Huffman_kraft.v -- completeness (Kraft equality) of the code of a merge
   sequence, and the cost identity: total weighted length = sum of the weights
   of the internal nodes, each of which joins the two minima of its heap. *)
From CV Require Import Base.Bits Model.Huffman Proofs.Huffman_heap Proofs.Huffman_build
  Proofs.Huffman_code.
From Coq Require Import Permutation.
Set Default Timeout 30.
Open Scope N_scope.

Fixpoint nsum (l : list N) : N := match l with [] => 0 | x :: r => x + nsum r end.

Lemma nsum_app a b : nsum (a ++ b) = nsum a + nsum b.
Proof. induction a as [|x r IH]; cbn; [reflexivity|]. rewrite IH. lia. Qed.

Lemma nsum_perm a b : Permutation a b -> nsum a = nsum b.
Proof. induction 1; cbn; lia. Qed.

Lemma enc_walk_mono f : forall nodes v bits f', (f <= f')%nat ->
  enc_walk f nodes v = Ok bits -> enc_walk f' nodes v = Ok bits.
Proof.
  induction f as [|f IH]; intros nodes v bits f' Hf H; [discriminate|].
  destruct f' as [|f']; [lia|]. cbn [enc_walk] in *.
  destruct (get_chk UB_enc_walk nodes v) as [node|]; cbn [rbind] in *; [|discriminate].
  destruct (node =? 0); [exact H|].
  destruct (enc_walk f nodes (shr node 1)) as [up|] eqn:E; cbn [rbind] in H; [|discriminate].
  rewrite (IH _ _ up f' ltac:(lia) E). exact H.
Qed.

Lemma children_sum (g : N -> N) ms : forall next,
  (forall k a b, nthN ms k = Some (a, b) -> g (next + k) = g a + g b) ->
  nsum (map g (children ms)) = nsum (map g (nseq next (length ms))).
Proof.
  induction ms as [|[a b] r IH]; intros next Hg; [reflexivity|].
  cbn [children flat_map fst snd app map nsum length nseq].
  change (flat_map (fun m => [fst m; snd m]) r) with (children r).
  rewrite (IH (next + 1)).
  - pose proof (Hg 0 a b eq_refl) as H0. rewrite N.add_0_r in H0. lia.
  - intros k a' b' Hk. replace (next + 1 + k) with (next + (k + 1)) by lia.
    apply Hg. rewrite nthN_succ. exact Hk.
Qed.

Section Depth.
  Variable n : N.
  Variable ms : list (N * N).
  Hypothesis T : tree_ok n ms.
  Let nodes := enc_of_merges n ms.
  Let root := 2 * n - 2.
  Let F := S (length nodes).

  (* number of bits the leaf-to-root walk emits when started at node v;
     for a symbol s < n this is the length of its codeword *)
  Definition depth (v : N) : nat :=
    match enc_walk F nodes v with Ok bits => length bits | Err _ => O end.

  Lemma walk_F v : v <= root -> exists bits, enc_walk F nodes v = Ok bits.
  Proof.
    intros H. apply (walk_up_total n ms T); [exact H|].
    pose proof (nodes_len n ms T) as L. pose proof (n_pos n ms T). unfold F, nodes, root in *. lia.
  Qed.

  Lemma depth_root : depth root = O.
  Proof.
    unfold depth, F, root, nodes. cbn [enc_walk]. unfold get_chk.
    rewrite (enc_root n ms T). cbn [rbind]. rewrite N.eqb_refl. reflexivity.
  Qed.

  Lemma depth_child k a b : nthN ms k = Some (a, b) ->
    depth a = S (depth (n + k)) /\ depth b = S (depth (n + k)).
  Proof.
    intros Hk. destruct (enc_child n ms T _ _ _ Hk) as (Ha & Hb). fold nodes in Ha, Hb.
    destruct (merge_bounds n ms T _ _ _ Hk) as (Hkn & _).
    destruct (walk_F (n + k) ltac:(unfold root; lia)) as (up & Hup).
    assert (exists up', enc_walk (length nodes) nodes (n + k) = Ok up') as (up' & Hup').
    { apply (walk_up_total n ms T); [lia|].
      pose proof (nodes_len n ms T) as L. unfold nodes in *. lia. }
    assert (length nodes <= F)%nat as HF by (unfold F; lia).
    pose proof (enc_walk_mono _ _ _ _ F HF Hup') as Hm.
    rewrite Hup in Hm. inversion Hm; subst up'. clear Hm.
    assert (n + k =? 0 = false) as E0 by (apply N.eqb_neq; pose proof (n_pos n ms T); lia).
    destruct (node_decode (n + k) false) as (Hz0 & Hs0 & _).
    destruct (node_decode (n + k) true) as (Hz1 & Hs1 & _).
    cbn [negb] in *. rewrite N.add_0_r in Hz0, Hs0.
    assert (depth (n + k) = length up) as Hd by (unfold depth; rewrite Hup; reflexivity).
    split.
    - unfold depth at 1. unfold F at 1. cbn [enc_walk]. unfold get_chk. rewrite Ha. cbn [rbind].
      rewrite Hz0, Hs0, E0. cbn [andb]. rewrite Hup'. cbn [rbind length]. rewrite Hd. reflexivity.
    - unfold depth at 1. unfold F at 1. cbn [enc_walk]. unfold get_chk. rewrite Hb. cbn [rbind].
      rewrite Hz1, Hs1, E0. cbn [andb]. rewrite Hup'. cbn [rbind length]. rewrite Hd. reflexivity.
  Qed.

  Lemma depth_is_code_length s bits : enc_suffix nodes s = Ok bits -> depth s = length bits.
  Proof.
    unfold enc_suffix, depth, F. destruct (_ <? s); [discriminate|]. intros ->. reflexivity.
  Qed.

  (* flow lemma: a quantity that is conserved at every merge is the same at the
     leaves and at the root *)
  Lemma flow (g : N -> N) :
    (forall k a b, nthN ms k = Some (a, b) -> g (n + k) = g a + g b) ->
    nsum (map g (nseq 0 (N.to_nat n))) = g root.
  Proof.
    intros Hg. pose proof (t_perm n ms T) as P. pose proof (n_pos n ms T) as Hn.
    pose proof (ms_len n ms T) as Hl.
    pose proof (children_sum g ms) as Hc.
    specialize (Hc n Hg).
    apply (Permutation_map g) in P. apply nsum_perm in P.
    rewrite map_app, nsum_app in P. cbn [map nsum] in P.
    replace (N.to_nat (2 * n - 1)) with (N.to_nat n + length ms)%nat in P by lia.
    rewrite nseq_app, map_app, nsum_app in P.
    replace (0 + N.of_nat (N.to_nat n)) with n in P by lia.
    unfold root. lia.
  Qed.

  (* Kraft equality, scaled by 2^L: sum over the alphabet of 2^(L - len s) = 2^L *)
  Theorem kraft_eq (L : nat) :
    (forall v, v <= root -> (depth v <= L)%nat) ->
    nsum (map (fun s => 2 ^ N.of_nat (L - depth s)) (nseq 0 (N.to_nat n))) = 2 ^ N.of_nat L.
  Proof.
    intros HL. rewrite flow.
    - rewrite depth_root. f_equal. lia.
    - intros k a b Hk. destruct (depth_child _ _ _ Hk) as (-> & ->).
      destruct (merge_bounds n ms T _ _ _ Hk) as (Hkn & Ha & _).
      pose proof (HL a ltac:(unfold root; lia)) as Hd.
      destruct (depth_child _ _ _ Hk) as (Hda & _). rewrite Hda in Hd.
      replace (N.of_nat (L - depth (n + k))) with (N.of_nat (L - S (depth (n + k))) + 1) by lia.
      rewrite N.pow_add_r. change (2 ^ 1) with 2. lia.
  Qed.

  (* a bound L always exists: no walk is longer than the array *)
  Lemma depth_le v : (depth v <= length nodes)%nat.
  Proof.
    unfold depth. destruct (enc_walk F nodes v) as [bits|] eqn:E; [|lia].
    assert (forall f v bits, enc_walk f nodes v = Ok bits -> (S (length bits) <= f)%nat) as Hb.
    { clear. induction f as [|f IH]; intros v bits H; [discriminate|].
      cbn [enc_walk] in H. destruct (get_chk UB_enc_walk nodes v) as [node|]; cbn [rbind] in H; [|discriminate].
      destruct (node =? 0); [inversion H; cbn; lia|].
      destruct (enc_walk f nodes (shr node 1)) as [up|] eqn:E; cbn [rbind] in H; [|discriminate].
      inversion H; subst. cbn [length]. specialize (IH _ _ E). lia. }
    specialize (Hb _ _ _ E). unfold F in Hb. lia.
  Qed.
End Depth.

(* ------------------------------------------------------------ cost *)
Fixpoint depth_ok (d : N -> nat) (next : N) (ms : list (N * N)) : Prop :=
  match ms with
  | [] => True
  | (a, b) :: r => d a = S (d next) /\ d b = S (d next) /\ depth_ok d (next + 1) r
  end.

Lemma depth_ok_of_nth d ms : forall next,
  (forall k a b, nthN ms k = Some (a, b) -> d a = S (d (next + k)) /\ d b = S (d (next + k))) ->
  depth_ok d next ms.
Proof.
  induction ms as [|[a b] r IH]; intros next H; cbn; [exact I|].
  destruct (H 0 a b eq_refl) as (Ha & Hb). rewrite N.add_0_r in Ha, Hb.
  repeat split; try assumption. apply IH. intros k a' b' Hk.
  replace (next + 1 + k) with (next + (k + 1)) by lia. apply H. rewrite nthN_succ. exact Hk.
Qed.

Definition hweight (h : list (N * N)) : N := nsum (map fst h).
(* sum over the heap of weight * depth of the node *)
Definition hcost (d : N -> nat) (h : list (N * N)) : N :=
  nsum (map (fun x => fst x * N.of_nat (d (snd x))) h).

Lemma hweight_perm h h' : Permutation h h' -> hweight h = hweight h'.
Proof. intros P. apply nsum_perm, Permutation_map, P. Qed.

Lemma hcost_perm d h h' : Permutation h h' -> hcost d h = hcost d h'.
Proof. intros P. apply nsum_perm, Permutation_map, P. Qed.

Section Cost.
  Variable wcmp : N -> N -> comparison.
  Variable wadd : N -> N -> option N.
  Variable wnan : N -> bool.
  Variable USZ : N.
  (* P::add, when it does not overflow, is addition *)
  Hypothesis wadd_spec : forall x y s, wadd x y = Some s -> s = x + y.
  Notation merge_step := (merge_step N wcmp wadd wnan).
  Notation merges_loop := (merges_loop N wcmp wadd wnan).

  Definition hd_weight (h : list (N * N)) : N := match h with (s, _) :: _ => s | [] => 0 end.

  (* the weights of the internal nodes, in the order of their creation *)
  Fixpoint sums_loop (fuel : nat) (heap : list (N * N)) (next : N) : res (list N) :=
    match fuel with
    | O => Err E_Fuel
    | S f =>
        match merge_step heap next with
        | None => Ok []
        | Some r =>
            x <- r ;;
            let '(i0, i1, heap') := x in
            ss <- sums_loop f heap' (next + 1) ;;
            Ok (hd_weight heap' :: ss)
        end
    end.

  Lemma sums_of_merges f : forall h next,
    match merges_loop f h next with
    | Ok ms => exists ss, sums_loop f h next = Ok ss /\ length ss = length ms
    | Err e => sums_loop f h next = Err e
    end.
  Proof.
    induction f as [|f IH]; intros h next; cbn; [reflexivity|].
    destruct (merge_step h next) as [[[[i0 i1] h']|e]|]; cbn.
    - specialize (IH h' (next + 1)).
      destruct (Huffman_build.merges_loop N wcmp wadd wnan f h' (next + 1)) as [ms'|e']; cbn.
      + destruct IH as (ss & -> & Hl). cbn. eexists. split; [reflexivity|]. cbn. lia.
      + rewrite IH. reflexivity.
    - reflexivity.
    - exists []. auto.
  Qed.

  Lemma cost_loop f : forall h next ms ss d root,
    merges_loop f h next = Ok ms -> sums_loop f h next = Ok ss ->
    heap_ok h next -> h <> [] -> depth_ok d next ms ->
    ((ms = [] /\ idx h = [root]) \/ (ms <> [] /\ root + 1 = next + N.of_nat (length ms))) ->
    hcost d h = hweight h * N.of_nat (d root) + nsum ss.
  Proof.
    induction f as [|f IH]; intros h next ms ss d root Hm Hs Hok Hne Hd Hroot; [discriminate|].
    cbn in Hm, Hs.
    destruct (merge_step h next) as [[[[i0 i1] h']|e]|] eqn:E; cbn in Hm, Hs; try discriminate.
    - destruct (Huffman_build.merges_loop N wcmp wadd wnan f h' (next + 1)) as [ms'|] eqn:Em;
        cbn in Hm; [|discriminate].
      destruct (sums_loop f h' (next + 1)) as [ss'|] eqn:Es; cbn in Hs; [|discriminate].
      inversion Hm; subst ms. inversion Hs; subst ss. clear Hm Hs.
      destruct (merge_step_ok _ _ _ _ _ _ _ _ _ Hok E) as (h2' & _ & _ & Hok' & _).
      destruct (merge_step_inv _ _ _ _ _ _ _ _ _ E) as (p0 & p1 & h1 & h2 & s & E1 & E2 & Ea & ->).
      apply wadd_spec in Ea.
      pose proof (pop_min_perm _ _ _ _ _ E1) as P1. pose proof (pop_min_perm _ _ _ _ _ E2) as P2.
      assert (Permutation h ((p0, i0) :: (p1, i1) :: h2)) as P by (rewrite P1; constructor; exact P2).
      cbn in Hd. destruct Hd as (D0 & D1 & Hd').
      assert ((s, next) :: h2 <> []) as Hne' by discriminate.
      destruct (merges_shape _ _ _ _ _ _ _ _ Em Hok' Hne') as (root' & _ & Hlen' & _ & _).
      assert ((ms' = [] /\ idx ((s, next) :: h2) = [root])
              \/ (ms' <> [] /\ root + 1 = next + 1 + N.of_nat (length ms'))) as Hroot'.
      { destruct Hroot as [[X _]|[_ Hr]]; [discriminate|]. cbn [length] in Hr.
        destruct ms' as [|m r].
        - left. split; [reflexivity|]. cbn in Hlen'. destruct h2; [|discriminate].
          cbn. f_equal. cbn in Hr. lia.
        - right. split; [discriminate|]. lia. }
      specialize (IH _ _ _ _ d root Em Es Hok' Hne' Hd' Hroot').
      rewrite (hcost_perm _ _ _ P), (hweight_perm _ _ P).
      unfold hcost, hweight in *. cbn [map nsum fst snd hd_weight] in *.
      rewrite D0, D1. nia.
    - inversion Hm; subst ms. inversion Hs; subst ss. clear Hm Hs.
      destruct Hroot as [[_ Hi]|[X _]]; [|congruence].
      destruct h as [|[w i] [|? ?]]; try discriminate.
      cbn in Hi. inversion Hi; subst. unfold hcost, hweight. cbn. lia.
  Qed.
End Cost.

(* Σ_s w_s * len(s) = Σ of the weights of the internal nodes, for the integer
   constructor (weights of a b-bit unsigned type, additions did not overflow) *)
Theorem cost_identity b USZ ws ms :
  dec_build_int b USZ ws = Ok ms ->
  let n := N.of_nat (length ws) in
  exists ss,
    sums_loop N.compare (nw_add b) nw_nan (S (length ws)) (enumerate N 0 ws) n = Ok ss
    /\ length ss = length ms
    /\ hcost (depth n ms) (enumerate N 0 ws) = nsum ss.
Proof.
  intros H n. pose proof (dec_build_ok _ _ _ _ _ _ _ H) as T. fold n in T.
  unfold dec_build_int, Huffman.dec_build in H.
  destruct (existsb nw_nan ws); [discriminate|]. destruct (_ || _) eqn:Ep; [discriminate|].
  rewrite dec_loop_merges, enumerate_length in H. fold n in H.
  destruct (Huffman_build.merges_loop N N.compare (nw_add b) nw_nan (S (length ws)) (enumerate N 0 ws) n)
    as [ms'|] eqn:Em; cbn in H; [|discriminate].
  inversion H; subst ms'. clear H.
  assert (forall x y s, nw_add b x y = Some s -> s = x + y) as Hadd.
  { unfold nw_add. intros x y s. destruct (x + y <? 2 ^ b); intros X; inversion X; reflexivity. }
  pose proof (sums_of_merges N.compare (nw_add b) nw_nan Hadd (S (length ws)) (enumerate N 0 ws) n) as Hs.
  rewrite Em in Hs. destruct Hs as (ss & Hs & Hl).
  exists ss. split; [exact Hs|]. split; [exact Hl|].
  assert (ws <> []) as Hne by (intros ->; cbn in Ep; discriminate).
  assert (enumerate N 0 ws <> []) as Hne' by (destruct ws; [congruence|discriminate]).
  pose proof (heap_ok_enumerate N ws) as Hok. fold n in Hok.
  destruct (merges_shape _ _ _ _ _ _ _ _ Em Hok Hne') as (root & _ & Hlen & _ & Hroot).
  rewrite (cost_loop N.compare (nw_add b) nw_nan Hadd _ _ _ _ _ (depth n ms) root Em Hs Hok Hne').
  - assert (root = 2 * n - 2) as ->.
    { assert (S (length ms) = length ws) as Hlen2.
      { rewrite <- (enumerate_length N ws 0). exact Hlen. }
      destruct Hroot as [[-> Hi]|[_ Hr]].
      - rewrite idx_enumerate in Hi. cbn in Hlen2. rewrite <- Hlen2 in Hi. cbn in Hi. inversion Hi.
        unfold n. lia.
      - unfold n. lia. }
    rewrite (depth_root n ms T). lia.
  - apply depth_ok_of_nth. intros k a c Hk. apply (depth_child n ms T). exact Hk.
  - exact Hroot.
Qed.

(* ---------- integer weights whose total fits the weight type: both constructors
   succeed (no addition overflows) *)
Lemma merge_step_int b h next :
  hweight h < 2 ^ b ->
  match merge_step N N.compare (nw_add b) nw_nan h next with
  | Some (Err _) => False
  | Some (Ok (_, _, h')) => hweight h' = hweight h
  | None => True
  end.
Proof.
  intros Hw. unfold merge_step.
  destruct (pop_min N N.compare h) as [[[p0 i0] h1]|] eqn:E1; [|exact I].
  destruct (pop_min N N.compare h1) as [[[p1 i1] h2]|] eqn:E2; [|exact I].
  pose proof (pop_min_perm _ _ _ _ _ E1) as P1. pose proof (pop_min_perm _ _ _ _ _ E2) as P2.
  assert (Permutation h ((p0, i0) :: (p1, i1) :: h2)) as P by (rewrite P1; constructor; exact P2).
  rewrite (hweight_perm _ _ P) in *. unfold hweight in *. cbn [map nsum fst] in *.
  unfold nw_add. assert (p0 + p1 <? 2 ^ b = true) as -> by (apply N.ltb_lt; lia).
  cbn. lia.
Qed.

Lemma merges_int_ok b f : forall h next,
  hweight h < 2 ^ b -> (length h < f)%nat -> heap_ok h next ->
  exists ms, merges_loop N N.compare (nw_add b) nw_nan f h next = Ok ms.
Proof.
  induction f as [|f IH]; intros h next Hw Hf Hok; [lia|].
  cbn. pose proof (merge_step_int b h next Hw) as Hs.
  destruct (merge_step N N.compare (nw_add b) nw_nan h next) as [[[[i0 i1] h']|e]|] eqn:E; cbn.
  - destruct (merge_step_ok _ _ _ _ _ _ _ _ _ Hok E) as (h2 & _ & _ & Hok' & _ & _ & _ & Hl).
    destruct (IH h' (next + 1)) as (ms' & ->); [lia|lia|exact Hok'|]. cbn. eauto.
  - contradiction.
  - eauto.
Qed.

Lemma hweight_enumerate ws : forall i, hweight (enumerate N i ws) = nsum ws.
Proof. induction ws as [|w r IH]; intros i; [reflexivity|]. unfold hweight in *. cbn. rewrite IH. reflexivity. Qed.

Theorem build_int_total b USZ ws :
  ws <> [] -> N.of_nat (length ws) <= usize_max USZ / 4 -> nsum ws < 2 ^ b ->
  exists en dn, enc_build_int b USZ ws = Ok en /\ dec_build_int b USZ ws = Ok dn.
Proof.
  intros Hne Hsz Hw.
  pose proof (build_same_tree N N.compare (nw_add b) nw_nan USZ ws Hsz) as Hs.
  fold (dec_build_int b USZ ws) in Hs. fold (enc_build_int b USZ ws) in Hs.
  assert (exists dn, dec_build_int b USZ ws = Ok dn) as (dn & Hd).
  { unfold dec_build_int, dec_build. cbn [existsb].
    assert (existsb nw_nan ws = false) as -> by (clear; induction ws; cbn; auto).
    rewrite enumerate_length.
    assert (usize_max USZ / 4 <= usize_max USZ / 2) as Hdiv.
    { apply N.div_le_lower_bound; [lia|].
      pose proof (N.mul_div_le (usize_max USZ) 4 ltac:(lia)). lia. }
    assert (N.of_nat (length ws) =? 0 = false) as -> by (apply N.eqb_neq; destruct ws; [congruence|cbn; lia]).
    assert (usize_max USZ / 2 <? N.of_nat (length ws) = false) as -> by (apply N.ltb_ge; lia).
    cbn [orb]. rewrite dec_loop_merges.
    destruct (merges_int_ok b (S (length ws)) (enumerate N 0 ws) (N.of_nat (length ws))) as (ms & ->).
    - rewrite hweight_enumerate. exact Hw.
    - pose proof (enumerate_length N ws 0) as El. unfold item in *. lia.
    - apply heap_ok_enumerate.
    - cbn. eauto. }
  rewrite Hd in Hs. eauto.
Qed.
