"""Family `docvec` (C06): the byte-exact example outputs of the documentation."""
FAMILY = "docvec"
RUNNER = ("Corr.Docvec_run", "run_docvec")

EXPECTED = {0: [0x421C7EC3, 0x000B8ED1], 1: [0x1C31EFEB, 0x87B430DA]}
KINDS = [0, 1]


_next = [0]


def gen_doc(rng):
    _next[0] += 1
    return [KINDS[_next[0] % len(KINDS)]]


def oracle_C06(inp, out):
    if len(out) < 11:
        return "malformed / panic"
    n = out[10]
    if out[11:11 + n] != EXPECTED[inp[0]]:
        return "documented example output changed: got %s" % [hex(x) for x in out[11:11 + n]]
    return None


ORACLES = {"C06": oracle_C06}


def nontrivial(inp, out, prop=None):
    return True


def describe(inp):
    return "docvec kind=%d (README example)" % inp[0]
